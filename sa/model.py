"""Program model and type resolver for the supvisors package (stdlib `ast` only).

Nothing from the analysed package is imported or executed: every fact comes from the parsed source
found under <root>/supvisors at the time of the run.
"""
import ast
import pathlib

EXCLUDED_DIRS = ('tests', 'test')


class AnalysisError(Exception):
    """The analysis itself cannot conclude (missing anchor, unknown shape, parse error): exit code 2."""


class Cls:
    def __init__(self, mod, node):
        self.mod, self.node, self.name = mod, node, node.name
        self.methods, self.props, self.setters = {}, {}, {}
        self.attrs = {}      # instance attributes with a resolved type
        self.cattrs = {}     # class-level assignments: name -> (annotation, value)
        self.bases, self.subs, self.ext_bases = [], [], []

    def __repr__(self):
        return self.name


class Mod:
    def __init__(self, name, path, tree, src):
        self.name, self.path, self.tree, self.src = name, path, tree, src
        self.imports, self.classes, self.funcs, self.aliases = {}, {}, {}, {}
        self.plain_imports = {}
        self.short = name.split('.')[-1]


class Unit:
    """A function, method, property getter, property setter or nested closure body."""

    def __init__(self, mod, cls, node, kind='method', parent=None):
        self.mod, self.cls, self.node, self.kind, self.parent = mod, cls, node, kind, parent
        if parent is not None:
            self.qual = parent.qual + '.<' + node.name + '>'
        else:
            self.qual = (cls.name + '.' if cls else mod.short + ':') + node.name + ('[set]' if kind == 'setter' else '')

    @property
    def name(self):
        return self.node.name

    @property
    def file(self):
        return str(self.mod.path)

    def loc(self, node=None):
        return '%s:%d' % (self.mod.relpath, (node or self.node).lineno)

    def __repr__(self):
        return self.qual


def unparse(n):
    return ast.unparse(n)


class Program:
    def __init__(self, root, trees=None):
        self.root = pathlib.Path(root)
        self.mods, self.classes, self.dup_classes = {}, {}, set()
        pkg = self.root / 'supvisors'
        if not pkg.is_dir():
            raise AnalysisError('no supvisors package under %s' % root)
        for p in sorted(pkg.rglob('*.py')):
            rel = p.relative_to(self.root)
            if any(part in EXCLUDED_DIRS for part in rel.parts):
                continue
            name = '.'.join(rel.with_suffix('').parts)
            if name.endswith('.__init__'):
                name = name[:-9]
            src = p.read_text()
            try:
                tree = trees[name] if trees is not None and name in trees else ast.parse(src)
            except SyntaxError as exc:
                raise AnalysisError('cannot parse %s: %s' % (rel, exc))
            m = Mod(name, p, tree, src)
            m.relpath = str(rel)
            self.mods[name] = m
        for m in self.mods.values():
            self._index(m)
        for c in list(self.classes.values()):
            for b in c.node.bases:
                r = self.lookup(c.mod, b.id) if isinstance(b, ast.Name) else None
                if r and r[0] == 'class':
                    c.bases.append(r[1])
                    r[1].subs.append(c)
                else:
                    c.ext_bases.append(unparse(b))
        if 'Supvisors' not in self.classes:
            raise AnalysisError('anchor class Supvisors (initializer.py) not found')
        self.SUP = self.classes['Supvisors']
        self.facade = {}
        init = self.SUP.methods.get('__init__')
        if init is None:
            raise AnalysisError('Supvisors.__init__ not found')
        for n in ast.walk(init.node):
            if isinstance(n, ast.Assign) and isinstance(n.targets[0], ast.Attribute) \
                    and isinstance(n.value, ast.Call) and isinstance(n.value.func, ast.Name):
                r = self.lookup(self.SUP.mod, n.value.func.id)
                if r and r[0] == 'class':
                    self.facade[n.targets[0].attr] = ('inst', r[1])
            elif isinstance(n, ast.AnnAssign) and isinstance(n.target, ast.Attribute):
                t = self.ann(self.SUP.mod, n.annotation)
                if t:
                    self.facade.setdefault(n.target.attr, t)
        self._ret_memo = {}
        for c in self.classes.values():
            self._attrs(c)
        self._rta()
        self._families()
        self._env_memo = {}

    # ------------------------------------------------------------------ indexing
    def _absmod(self, cur, level, module):
        if level == 0:
            return module
        parts = cur.split('.')
        is_pkg = self.mods[cur].path.name == '__init__.py'
        base = parts if is_pkg else parts[:-1]
        base = base[:len(base) - (level - 1)]
        return '.'.join(base + ([module] if module else []))

    def _index(self, m):
        def imports(body):
            for n in body:
                if isinstance(n, ast.Import):
                    for a in n.names:
                        m.plain_imports[(a.asname or a.name).split('.')[0]] = a.name
                elif isinstance(n, ast.ImportFrom):
                    src = self._absmod(m.name, n.level, n.module)
                    for a in n.names:
                        if a.name == '*':
                            m.imports['*' + src] = src
                        else:
                            m.imports[a.asname or a.name] = (src, a.name)
                elif isinstance(n, (ast.If, ast.Try)):
                    imports(n.body)
                    imports(getattr(n, 'orelse', []))
                    for h in getattr(n, 'handlers', []):
                        imports(h.body)
        imports(m.tree.body)
        for n in m.tree.body:
            if isinstance(n, ast.ClassDef):
                c = Cls(m, n)
                m.classes[n.name] = c
                if n.name in self.classes:
                    self.dup_classes.add(n.name)
                else:
                    self.classes[n.name] = c
                for b in n.body:
                    if isinstance(b, (ast.FunctionDef, ast.AsyncFunctionDef)):
                        decs = [unparse(d) for d in b.decorator_list]
                        if 'property' in decs:
                            c.props[b.name] = Unit(m, c, b, 'prop')
                        elif any(d.endswith('.setter') for d in decs):
                            c.setters[b.name] = Unit(m, c, b, 'setter')
                        else:
                            c.methods[b.name] = Unit(m, c, b, 'static' if 'staticmethod' in decs else 'method')
                    elif isinstance(b, ast.AnnAssign) and isinstance(b.target, ast.Name):
                        c.cattrs[b.target.id] = (b.annotation, b.value)
                    elif isinstance(b, ast.Assign):
                        for t in b.targets:
                            if isinstance(t, ast.Name):
                                c.cattrs[t.id] = (None, b.value)
                            elif isinstance(t, ast.Tuple) and isinstance(b.value, ast.Call) \
                                    and unparse(b.value.func) == 'range':
                                for i, e in enumerate(t.elts):       # A, B, C = range(3)
                                    if isinstance(e, ast.Name):
                                        c.cattrs[e.id] = (None, ast.Constant(value=i))
            elif isinstance(n, (ast.FunctionDef, ast.AsyncFunctionDef)):
                m.funcs[n.name] = Unit(m, None, n, 'func')
            elif isinstance(n, ast.Assign) and isinstance(n.targets[0], ast.Name):
                m.aliases[n.targets[0].id] = n.value
            elif isinstance(n, ast.AnnAssign) and isinstance(n.target, ast.Name) and n.value is not None:
                m.aliases[n.target.id] = n.value

    def lookup(self, m, name, seen=()):
        if name in m.classes:
            return ('class', m.classes[name])
        if name in m.funcs:
            return ('func', m.funcs[name])
        if name in m.aliases:
            return ('alias', m, m.aliases[name])
        if name in m.imports:
            src, orig = m.imports[name]
            if src in self.mods and (src, orig) not in seen:
                r = self.lookup(self.mods[src], orig, seen + ((src, orig),))
                if r:
                    return r
                if src + '.' + orig in self.mods:
                    return ('module', self.mods[src + '.' + orig])
            return ('ext', src, orig)
        for k, src in m.imports.items():
            if k.startswith('*') and src in self.mods:
                r = self.lookup(self.mods[src], name, seen)
                if r:
                    return r
        return None

    # ------------------------------------------------------------------ hierarchy
    def mro(self, c):
        out = [c]
        for b in c.bases:
            for x in self.mro(b):
                if x not in out:
                    out.append(x)
        return out

    def member(self, c, name, after=None):
        m = self.mro(c)
        if after is not None and after in m:
            m = m[m.index(after) + 1:]
        for k in m:
            if name in k.methods:
                return ('method', k, k.methods[name])
            if name in k.props:
                return ('prop', k, k.props[name])
            if name in k.cattrs:
                return ('cattr', k, k.cattrs[name])
        return None

    def all_subs(self, c):
        out = []
        for s in c.subs:
            out.append(s)
            out += self.all_subs(s)
        return out

    def is_subclass(self, c, base):
        return base in self.mro(c)

    def is_enum(self, c):
        return any(b in ('Enum', 'IntEnum', 'enum.Enum') for k in self.mro(c) for b in k.ext_bases)

    def enum_members(self, name):
        c = self.classes.get(name)
        if c is None or not self.is_enum(c):
            raise AnalysisError('enum %s not found' % name)
        return [k for k, (a, v) in c.cattrs.items() if not k.startswith('_')]

    # ------------------------------------------------------------------ annotations
    def ann(self, m, a, cls=None, depth=0):
        if a is None or depth > 8:
            return None
        if isinstance(a, ast.Constant) and isinstance(a.value, str):
            try:
                a = ast.parse(a.value, mode='eval').body
            except SyntaxError:
                return None
        if isinstance(a, ast.Constant) and a.value is None:
            return None
        if isinstance(a, ast.Name):
            if a.id in ('str', 'int', 'float', 'bool', 'bytes'):
                return ('prim', a.id)
            if cls is not None:          # class-scope alias (CommandList inside ApplicationJobs)
                mem = self.member(cls, a.id)
                if mem and mem[0] == 'cattr' and mem[2][0] is None and \
                        isinstance(mem[2][1], (ast.Subscript, ast.Name, ast.Attribute)):
                    t = self.ann(mem[1].mod, mem[2][1], mem[1], depth + 1)
                    if t:
                        return t
            r = self.lookup(m, a.id)
            if r and r[0] == 'class':
                return ('inst', r[1])
            if r and r[0] == 'alias':
                return self.ann(r[1], r[2], None, depth + 1)
            return None
        if isinstance(a, ast.Attribute):
            base = self.ann(m, a.value, cls, depth + 1)
            if base and base[0] == 'inst':
                mem = self.member(base[1], a.attr)
                if mem and mem[0] == 'cattr':
                    return self.ann(mem[1].mod, mem[2][1], mem[1], depth + 1)
            return None
        if isinstance(a, ast.BinOp) and isinstance(a.op, ast.BitOr):
            return self.ann(m, a.left, cls, depth + 1) or self.ann(m, a.right, cls, depth + 1)
        if isinstance(a, ast.Subscript):
            head = unparse(a.value).split('.')[-1]
            args = a.slice.elts if isinstance(a.slice, ast.Tuple) else [a.slice]
            if head == 'Optional':
                return self.ann(m, args[0], cls, depth + 1)
            if head in ('List', 'Set', 'Sequence', 'Iterator', 'Iterable', 'AbstractSet', 'list', 'set', 'Generator',
                        'Deque', 'deque', 'FrozenSet'):
                return ('list', self.ann(m, args[0], cls, depth + 1))
            if head in ('Dict', 'dict', 'OrderedDict', 'Mapping', 'DefaultDict') and len(args) == 2:
                return ('dict', self.ann(m, args[0], cls, depth + 1), self.ann(m, args[1], cls, depth + 1))
            if head in ('Tuple', 'tuple'):
                return ('tuple', [self.ann(m, x, cls, depth + 1) for x in args])
            if head == 'Union':
                ts = [t for t in (self.ann(m, x, cls, depth + 1) for x in args) if t]
                return ts[0] if ts else None
        return None

    def _attrs(self, c):
        for u in list(c.methods.values()) + list(c.setters.values()):
            for n in ast.walk(u.node):
                if isinstance(n, ast.AnnAssign) and isinstance(n.target, ast.Attribute) \
                        and unparse(n.target.value) == 'self':
                    t = self.ann(c.mod, n.annotation, c)
                    if t:
                        c.attrs[n.target.attr] = t
                elif isinstance(n, ast.Assign) and isinstance(n.targets[0], ast.Attribute) \
                        and unparse(n.targets[0].value) == 'self':
                    v = n.value
                    if isinstance(v, ast.Call) and isinstance(v.func, ast.Name):
                        r = self.lookup(c.mod, v.func.id)
                        if r and r[0] == 'class':
                            c.attrs.setdefault(n.targets[0].attr, ('inst', r[1]))
                    elif isinstance(v, ast.Name) and v.id == 'supvisors':
                        c.attrs.setdefault(n.targets[0].attr, ('inst', self.SUP))

    def attr_type(self, c, name):
        for k in self.mro(c):
            if name in k.attrs:
                return k.attrs[name]
            if name in k.props:
                return self.ann(k.mod, k.props[name].node.returns, k) or self.infer_ret(k.props[name], k)
            if name in k.cattrs:
                a, val = k.cattrs[name]
                t = self.ann(k.mod, a, k)
                if t:
                    return t
                if isinstance(val, ast.Name):
                    r = self.lookup(k.mod, val.id)
                    if r and r[0] == 'class':
                        return ('cls', r[1])
                    if r and r[0] == 'func':
                        return ('func', r[1])
                    if val.id in ('min', 'max'):
                        return ('builtin', val.id)
                if self.is_enum(k) and not name.startswith('_'):
                    return ('inst', k)
                return None
        return None

    # ------------------------------------------------------------------ RTA / families
    def _rta(self):
        self.inst = set()
        for m in self.mods.values():
            for n in ast.walk(m.tree):
                if isinstance(n, ast.Call) and isinstance(n.func, ast.Name):
                    r = self.lookup(m, n.func.id)
                    if r and r[0] == 'class':
                        self.inst.add(r[1])
        for c in self.classes.values():
            for a, val in c.cattrs.values():
                for x in ast.walk(val) if val is not None else []:
                    if isinstance(x, ast.Name):
                        r = self.lookup(c.mod, x.id)
                        if r and r[0] == 'class':
                            self.inst.add(r[1])
            # instance attribute bound to a class: self.klass = SupervisorProxyThread
            for u in c.methods.values():
                for n in ast.walk(u.node):
                    if isinstance(n, ast.Assign) and isinstance(n.value, ast.Name):
                        r = self.lookup(c.mod, n.value.id)
                        if r and r[0] == 'class':
                            self.inst.add(r[1])

    def _families(self):
        """Commander families: inside a context of the family, declared base types narrow to the family member."""
        self.family = {}
        com = self.classes.get('Commander')
        if com is None:
            return
        for K in [com] + self.all_subs(com):
            if K not in self.inst:
                continue
            fam = {K}
            for nm in ('command_class', 'job_class'):
                t = self.attr_type(K, nm)
                if t and t[0] == 'cls':
                    fam.add(t[1])
            for k in self.mro(K):
                for u in k.methods.values():
                    for n in ast.walk(u.node):
                        if isinstance(n, ast.Call) and isinstance(n.func, ast.Name):
                            r = self.lookup(k.mod, n.func.id)
                            if r and r[0] == 'class' and any(b.name in ('ApplicationJobs', 'ProcessCommand')
                                                             for b in self.mro(r[1])):
                                fam.add(r[1])
            for c in fam:
                self.family[c] = fam

    def narrow(self, ctx, t):
        if not t or ctx is None:
            return t
        if t[0] == 'inst' and ctx in self.family:
            cands = [c for c in self.family[ctx] if t[1] in self.mro(c)]
            if cands:
                cands.sort(key=lambda c: -len(self.mro(c)))
                return ('inst', cands[0])
            return t
        if t[0] == 'list':
            return ('list', self.narrow(ctx, t[1]))
        if t[0] == 'dict':
            return ('dict', t[1], self.narrow(ctx, t[2]))
        if t[0] == 'tuple':
            return ('tuple', [self.narrow(ctx, x) for x in t[1]])
        return t

    def infer_ret(self, unit, ctx):
        key = (unit, ctx)
        if key in self._ret_memo:
            return self._ret_memo[key]
        self._ret_memo[key] = None
        t = self.ann(unit.mod, unit.node.returns, unit.cls)
        if not t:
            env = self.env(unit, ctx)
            for n in ast.walk(unit.node):
                if isinstance(n, ast.Return) and n.value is not None:
                    t = env.typeof(n.value)
                    if t:
                        break
        self._ret_memo[key] = t
        return t

    def env(self, unit, ctx=None):
        key = (unit, ctx)
        e = self._env_memo.get(key) if hasattr(self, '_env_memo') else None
        if e is None:
            e = Env(self, unit, ctx)
            if hasattr(self, '_env_memo'):
                self._env_memo[key] = e
        return e

    # ------------------------------------------------------------------ anchors
    def unit(self, qual):
        """'Class.method', 'Class.prop', 'Class.name[set]' or 'module:function'; AnalysisError when absent."""
        if ':' in qual:
            mod, fn = qual.split(':')
            for m in self.mods.values():
                if m.short == mod and fn in m.funcs:
                    return m.funcs[fn]
            # moved to another module of the package and imported back under the same name
            for m in self.mods.values():
                if m.short == mod:
                    r = self.lookup(m, fn)
                    if r and r[0] == 'func':
                        return r[1]
            cands = [m.funcs[fn] for m in self.mods.values() if fn in m.funcs]
            if len(cands) == 1 and any(m.short == mod for m in self.mods.values()):
                return cands[0]
            raise AnalysisError('anchor function %s not found' % qual)
        cname, _, mname = qual.partition('.')
        c = self.classes.get(cname)
        if c is None:
            raise AnalysisError('anchor class %s not found' % cname)
        if cname in self.dup_classes:
            raise AnalysisError('anchor class %s is defined twice in the package' % cname)
        if mname.endswith('[set]'):
            u = c.setters.get(mname[:-5])
        else:
            u = c.methods.get(mname) or c.props.get(mname)
            if u is None:
                # an override of the reference tree that was removed because it duplicated the inherited method: what
                # an instance runs is the inherited one, accepted only when it does exactly what the override did
                mem = self.member(c, mname)
                if mem and mem[0] in ('method', 'prop'):
                    from .normalise import body_hash, PINNED_FILE
                    import json
                    if not hasattr(Program, '_pinned_bodies'):
                        Program._pinned_bodies = json.loads(PINNED_FILE.read_text()).get('bodies', {})
                    ref = Program._pinned_bodies.get(qual)
                    if ref and body_hash(mem[2].node) == ref[0]:
                        u = mem[2]
        if u is None:
            raise AnalysisError('anchor %s not found' % qual)
        return u

    def cls(self, name):
        c = self.classes.get(name)
        if c is None:
            raise AnalysisError('anchor class %s not found' % name)
        return c

    def resolved(self, c, name):
        """the Unit that `name` resolves to on an instance of class c (through the MRO)."""
        mem = self.member(c, name)
        if not mem or mem[0] not in ('method', 'prop'):
            raise AnalysisError('anchor %s.%s does not resolve to a method' % (c.name, name))
        return mem[2]

    def all_units(self, with_closures=True):
        for m in self.mods.values():
            for u in m.funcs.values():
                yield u
                if with_closures:
                    yield from closures(u)
            for c in m.classes.values():
                for u in list(c.methods.values()) + list(c.props.values()) + list(c.setters.values()):
                    yield u
                    if with_closures:
                        yield from closures(u)

    def const_value(self, m, e, depth=0):
        """literal python value of a module/class constant expression (numbers, strings, enum member names)."""
        if depth > 6:
            return None
        if isinstance(e, ast.Constant):
            return e.value
        if isinstance(e, ast.UnaryOp) and isinstance(e.op, ast.USub):
            v = self.const_value(m, e.operand, depth + 1)
            return -v if isinstance(v, (int, float)) else None
        if isinstance(e, ast.Name):
            r = self.lookup(m, e.id)
            if r and r[0] == 'alias':
                return self.const_value(r[1], r[2], depth + 1)
        if isinstance(e, ast.Attribute):
            t = self.ann(m, e.value)
            if isinstance(e.value, ast.Name):
                r = self.lookup(m, e.value.id)
                if r and r[0] == 'class':
                    mem = self.member(r[1], e.attr)
                    if mem and mem[0] == 'cattr':
                        if self.is_enum(r[1]):
                            return ('enum', r[1].name, e.attr)
                        return self.const_value(mem[1].mod, mem[2][1], depth + 1)
        return None


_CLOSURE_MEMO = {}


def closures(unit):
    """nested function definitions of a unit, as units (recursively)."""
    if unit in _CLOSURE_MEMO:
        return _CLOSURE_MEMO[unit]
    out = []

    def walk(n):
        for ch in ast.iter_child_nodes(n):
            if isinstance(ch, (ast.FunctionDef, ast.AsyncFunctionDef)):
                cu = Unit(unit.mod, unit.cls, ch, 'closure', parent=unit)
                out.append(cu)
                out.extend(closures(cu))
            elif isinstance(ch, ast.ClassDef):
                continue
            else:
                walk(ch)
    walk(unit.node)
    _CLOSURE_MEMO[unit] = out
    return out


def own_nodes(fn_node):
    """ast.walk restricted to the function's own body (nested defs/lambdas/classes not entered)."""
    stack = list(ast.iter_child_nodes(fn_node))
    while stack:
        n = stack.pop()
        yield n
        if isinstance(n, (ast.FunctionDef, ast.AsyncFunctionDef, ast.ClassDef)):
            continue
        stack.extend(ast.iter_child_nodes(n))


class Env:
    """Flow-insensitive type environment of one unit analysed under receiver class `ctx`."""

    def __init__(self, P, unit, ctx=None):
        self.P, self.unit, self.mod, self.ctx, self.vars = P, unit, unit.mod, ctx, {}
        if unit.parent is not None:
            self.vars.update(P.env(unit.parent, ctx).vars)
        a = unit.node.args
        allargs = a.posonlyargs + a.args + a.kwonlyargs
        for i, x in enumerate(allargs):
            if i == 0 and unit.cls and x.arg == 'self' and unit.parent is None:
                self.vars['self'] = ('inst', ctx or unit.cls)
                continue
            t = P.ann(self.mod, x.annotation, unit.cls)
            if x.arg == 'supvisors':
                t = ('inst', P.SUP)
            if t:
                self.vars[x.arg] = P.narrow(ctx, t)
            else:
                self.vars.pop(x.arg, None)
        self._locals()

    def _bind(self, tgt, t):
        if t is None:
            return
        if isinstance(tgt, ast.Name):
            self.vars.setdefault(tgt.id, t)
        elif isinstance(tgt, (ast.Tuple, ast.List)) and t[0] == 'tuple':
            for x, tt in zip(tgt.elts, t[1]):
                self._bind(x, tt)

    def _locals(self):
        nodes = list(own_nodes(self.unit.node))
        for _ in range(3):
            for n in nodes:
                if isinstance(n, ast.Assign) and len(n.targets) == 1:
                    self._bind(n.targets[0], self.typeof(n.value))
                elif isinstance(n, ast.AnnAssign) and isinstance(n.target, ast.Name):
                    t = self.P.narrow(self.ctx, self.P.ann(self.mod, n.annotation, self.unit.cls)) \
                        or (self.typeof(n.value) if n.value else None)
                    if t:
                        self.vars.setdefault(n.target.id, t)
                elif isinstance(n, (ast.For, ast.comprehension)):
                    t = self.typeof(n.iter)
                    if t and t[0] == 'list':
                        self._bind(n.target, t[1])
                    elif t and t[0] == 'dict':
                        self._bind(n.target, t[1])
                elif isinstance(n, ast.NamedExpr):
                    self._bind(n.target, self.typeof(n.value))
                elif isinstance(n, ast.withitem) and n.optional_vars is not None:
                    self._bind(n.optional_vars, self.typeof(n.context_expr))

    def typeof(self, e, d=0):
        P = self.P
        if d > 12 or e is None:
            return None
        if isinstance(e, ast.Name):
            if e.id in self.vars:
                return self.vars[e.id]
            r = P.lookup(self.mod, e.id)
            if r and r[0] == 'class':
                return ('cls', r[1])
            if r and r[0] == 'module':
                return ('module', r[1])
            return None
        if isinstance(e, ast.Attribute):
            if e.attr == 'supvisors':
                return ('inst', P.SUP)
            b = self.typeof(e.value, d + 1)
            if b and b[0] == 'inst':
                if b[1] is P.SUP and e.attr in P.facade:
                    return P.facade[e.attr]
                return P.narrow(self.ctx, P.attr_type(b[1], e.attr))
            if b and b[0] == 'cls':
                return P.attr_type(b[1], e.attr)
            if b and b[0] == 'super':
                return P.narrow(self.ctx, P.attr_type(b[1], e.attr))
            return None
        if isinstance(e, ast.Subscript):
            b = self.typeof(e.value, d + 1)
            if b and b[0] == 'dict':
                return b[2]
            if b and b[0] == 'list':
                return b if isinstance(e.slice, ast.Slice) else b[1]
            if b and b[0] == 'tuple' and isinstance(e.slice, ast.Constant) and isinstance(e.slice.value, int) \
                    and e.slice.value < len(b[1]):
                return b[1][e.slice.value]
            return None
        if isinstance(e, (ast.ListComp, ast.SetComp, ast.GeneratorExp)):
            return ('list', self.typeof(e.elt, d + 1))
        if isinstance(e, ast.DictComp):
            return ('dict', self.typeof(e.key, d + 1), self.typeof(e.value, d + 1))
        if isinstance(e, (ast.List, ast.Set)):
            return ('list', self.typeof(e.elts[0], d + 1) if e.elts else None)
        if isinstance(e, ast.Tuple):
            return ('tuple', [self.typeof(x, d + 1) for x in e.elts])
        if isinstance(e, ast.Dict):
            return ('dict', None, self.typeof(e.values[0], d + 1) if e.values else None)
        if isinstance(e, ast.BinOp) and isinstance(e.op, (ast.Add, ast.BitOr, ast.Sub, ast.BitAnd)):
            return self.typeof(e.left, d + 1) or self.typeof(e.right, d + 1)
        if isinstance(e, ast.Starred):
            return self.typeof(e.value, d + 1)
        if isinstance(e, ast.Call):
            return self._typeof_call(e, d)
        if isinstance(e, ast.IfExp):
            return self.typeof(e.body, d + 1) or self.typeof(e.orelse, d + 1)
        if isinstance(e, ast.BoolOp):
            for v in e.values:
                t = self.typeof(v, d + 1)
                if t:
                    return t
        if isinstance(e, ast.NamedExpr):
            return self.typeof(e.value, d + 1)
        if isinstance(e, ast.Await):
            return self.typeof(e.value, d + 1)
        return None

    def _typeof_call(self, e, d):
        P, f = self.P, e.func
        if isinstance(f, ast.Name):
            if f.id == 'super':
                return ('super', self.unit.cls)
            if f.id in ('list', 'sorted', 'set', 'reversed', 'filter', 'iter', 'tuple', 'frozenset', 'enumerate') \
                    and e.args:
                t = self.typeof(e.args[-1] if f.id == 'filter' else e.args[0], d + 1)
                if f.id == 'enumerate':
                    inner = t[1] if t and t[0] in ('list', 'dict') else None
                    return ('list', ('tuple', [('prim', 'int'), inner]))
                if t and t[0] == 'list':
                    return t
                if t and t[0] == 'dict':
                    return ('list', t[1])
                return ('list', None)
            if f.id == 'sum' and len(e.args) == 2:
                t = self.typeof(e.args[0], d + 1)
                if t and t[0] == 'list' and t[1] and t[1][0] == 'list':
                    return t[1]
                return self.typeof(e.args[1], d + 1)
            if f.id in ('next', 'min', 'max') and e.args:
                t = self.typeof(e.args[0], d + 1)
                if t and t[0] == 'list':
                    return t[1]
                if t and t[0] == 'dict':
                    return t[1]
                return None
            if f.id in ('dict',) and e.args:
                return self.typeof(e.args[0], d + 1)
            r = P.lookup(self.mod, f.id)
            if r and r[0] == 'class':
                return ('inst', r[1])
            if r and r[0] == 'func':
                return P.infer_ret(r[1], None)
            tv = self.vars.get(f.id)
            if tv and tv[0] == 'cls':
                return ('inst', tv[1])
            if tv and tv[0] == 'func':
                return P.infer_ret(tv[1], None)
            return None
        if isinstance(f, ast.Attribute):
            b = self.typeof(f.value, d + 1)
            if b and b[0] == 'dict':
                if f.attr in ('get', 'pop', 'setdefault'):
                    return b[2]
                if f.attr == 'values':
                    return ('list', b[2])
                if f.attr == 'keys':
                    return ('list', b[1])
                if f.attr == 'items':
                    return ('list', ('tuple', [b[1], b[2]]))
                if f.attr == 'copy':
                    return b
            if b and b[0] == 'list':
                if f.attr in ('copy', 'union', 'intersection', 'difference'):
                    return b
                if f.attr == 'pop':
                    return b[1]
            if b and b[0] in ('inst', 'super'):
                mem = P.member(b[1], f.attr) if b[0] == 'inst' else P.member(self.ctx or b[1], f.attr, after=b[1])
                if mem and mem[0] == 'method':
                    return P.narrow(self.ctx, P.infer_ret(mem[2], b[1] if b[0] == 'inst' else self.ctx))
                if mem and mem[0] == 'cattr':
                    t = P.attr_type(b[1], f.attr)
                    if t and t[0] == 'cls':
                        return ('inst', t[1])
                    if t and t[0] == 'func':
                        return P.infer_ret(t[1], None)
                if b[0] == 'inst':
                    t = P.attr_type(b[1], f.attr)        # instance attribute holding a class
                    if t and t[0] == 'cls':
                        return ('inst', t[1])
            if b and b[0] == 'cls':
                mem = P.member(b[1], f.attr)
                if mem and mem[0] == 'method':
                    return P.infer_ret(mem[2], None)
            if b and b[0] == 'module':
                r = P.lookup(b[1], f.attr)
                if r and r[0] == 'class':
                    return ('inst', r[1])
                if r and r[0] == 'func':
                    return P.infer_ret(r[1], None)
        if isinstance(f, ast.Subscript):          # self._StateInstances[state](supvisors)
            b = self.typeof(f.value, d + 1)
        return None

    # ---- call targets: list of (ctx, Unit); None = unresolved; [] = resolved to nothing analysable (builtin/ext)
    def targets(self, call):
        P, f = self.P, call.func
        if isinstance(f, ast.Name):
            r = P.lookup(self.mod, f.id)
            if r and r[0] == 'class':
                mem = P.member(r[1], '__init__')
                return [(r[1], mem[2])] if mem and mem[0] == 'method' else []
            if r and r[0] == 'func':
                return [(None, r[1])]
            tv = self.vars.get(f.id)
            if tv and tv[0] == 'cls':
                mem = P.member(tv[1], '__init__')
                return [(tv[1], mem[2])] if mem else []
            if tv and tv[0] == 'func':
                return [(None, tv[1])]
            # closure defined in this unit or a parent
            u = self.unit
            while u is not None:
                for cu in closures(u):
                    if cu.node.name == f.id and cu.parent is u:
                        return [(self.ctx, cu)]
                u = u.parent
            if r and r[0] == 'ext':
                return []
            import builtins
            if hasattr(builtins, f.id):
                return []
            return None
        if isinstance(f, ast.Attribute):
            b = self.typeof(f.value)
            if b and b[0] == 'super':
                mem = P.member(self.ctx or b[1], f.attr, after=b[1])
                return [(self.ctx or b[1], mem[2])] if mem and mem[0] == 'method' else []
            if b and b[0] == 'inst':
                c = b[1]
                is_self = isinstance(f.value, ast.Name) and f.value.id == 'self'
                if is_self:
                    mem = P.member(c, f.attr)
                    if mem and mem[0] == 'method':
                        return [(c, mem[2])]
                    t = P.attr_type(c, f.attr)
                    if t and t[0] == 'cls':
                        m2 = P.member(t[1], '__init__')
                        return [(t[1], m2[2])] if m2 and m2[0] == 'method' else []
                    if t and t[0] == 'func':
                        return [(None, t[1])]
                    if t and t[0] == 'builtin':
                        return []
                    if mem and mem[0] == 'cattr':
                        return []
                    return None
                out = []
                cands = [k for k in [c] + P.all_subs(c) if k in P.inst] or [c]
                if self.ctx in P.family:
                    cands = [k for k in cands if k in P.family[self.ctx]] or cands
                for k in cands:
                    mem = P.member(k, f.attr)
                    if mem and mem[0] == 'method' and (k, mem[2]) not in out:
                        out.append((k, mem[2]))
                    elif mem and mem[0] == 'cattr':
                        t = P.attr_type(k, f.attr)
                        if t and t[0] == 'cls':
                            m2 = P.member(t[1], '__init__')
                            if m2:
                                out.append((t[1], m2[2]))
                        elif t and t[0] == 'func':
                            out.append((None, t[1]))
                if out:
                    return out
                t = P.attr_type(c, f.attr)
                if t and t[0] == 'cls':
                    m2 = P.member(t[1], '__init__')
                    return [(t[1], m2[2])] if m2 and m2[0] == 'method' else []
                if t is not None:
                    return []
                return None
            if b and b[0] == 'cls':
                mem = P.member(b[1], f.attr)
                if mem and mem[0] == 'method':
                    return [(b[1], mem[2])]
                return []
            if b and b[0] == 'module':
                r = P.lookup(b[1], f.attr)
                if r and r[0] == 'func':
                    return [(None, r[1])]
                if r and r[0] == 'class':
                    mem = P.member(r[1], '__init__')
                    return [(r[1], mem[2])] if mem and mem[0] == 'method' else []
                return []
            if b and b[0] in ('dict', 'list', 'tuple', 'prim', 'builtin'):
                return []
            if isinstance(f.value, ast.Name) and f.value.id in self.mod.plain_imports:
                return []       # stdlib module function: time.monotonic(), re.compile()
            if isinstance(f.value, ast.Constant):
                return []
            return None
        if isinstance(f, ast.Subscript):
            # table of classes: self._StateInstances[self.state](self.supvisors)
            tbl = f.value
            if isinstance(tbl, ast.Attribute):
                b = self.typeof(tbl.value)
                if b and b[0] in ('inst', 'cls'):
                    mem = P.member(b[1], tbl.attr)
                    if mem and mem[0] == 'cattr' and isinstance(mem[2][1], ast.Dict):
                        out = []
                        for v in mem[2][1].values:
                            if isinstance(v, ast.Name):
                                r = P.lookup(mem[1].mod, v.id)
                                if r and r[0] == 'class':
                                    m2 = P.member(r[1], '__init__')
                                    if m2:
                                        out.append((r[1], m2[2]))
                        return out
            return None
        return None

    def prop_targets(self, attr_node):
        """property getter (Load) / setter (Store) units behind an attribute access."""
        P = self.P
        b = self.typeof(attr_node.value)
        if b and b[0] == 'super':
            b = ('inst', b[1])
        if b and b[0] == 'inst':
            ks = [b[1]]
            is_self = isinstance(attr_node.value, ast.Name) and attr_node.value.id == 'self'
            if not is_self:
                ks += [k for k in P.all_subs(b[1]) if k in P.inst]
            out = []
            for c in ks:
                for k in P.mro(c):
                    if isinstance(attr_node.ctx, ast.Store) and attr_node.attr in k.setters:
                        if (c, k.setters[attr_node.attr]) not in out:
                            out.append((c, k.setters[attr_node.attr]))
                        break
                    if isinstance(attr_node.ctx, ast.Load) and attr_node.attr in k.props:
                        if (c, k.props[attr_node.attr]) not in out:
                            out.append((c, k.props[attr_node.attr]))
                        break
                    if attr_node.attr in k.props or attr_node.attr in k.attrs or attr_node.attr in k.cattrs:
                        break
            return out
        return []
