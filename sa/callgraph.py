"""Context-sensitive call graph: nodes are (receiver class or None, Unit); edges carry the call-site line,
the path facts of the site and the AST node of the call."""
import ast
import collections
from .model import own_nodes, closures
from .paths import factmap


class Edge:
    __slots__ = ('src', 'dst', 'node', 'line', 'facts', 'kind')

    def __init__(self, src, dst, node, facts, kind):
        self.src, self.dst, self.node, self.line, self.facts, self.kind = src, dst, node, node.lineno, facts, kind

    def has(self, text, pol=True):
        return any(f[0] == text and f[1] == pol for f in self.facts)


def is_logging(call):
    parts = ast.unparse(call.func).split('.')
    return 'logger' in parts


class CallGraph:
    def __init__(self, P):
        self.P = P
        self.edges = collections.defaultdict(list)
        self.unres = collections.defaultdict(list)
        self.done = set()
        self.n_calls = 0
        self.n_resolved = 0

    def expand(self, node):
        if node in self.done:
            return
        self.done.add(node)
        ctx, unit = node
        env = self.P.env(unit, ctx)
        fm = factmap(unit)
        for ch in own_nodes(unit.node):
            if isinstance(ch, ast.Call):
                if is_logging(ch):
                    continue
                self.n_calls += 1
                t = env.targets(ch)
                if t is None:
                    self.unres[node].append((ch.lineno, ast.unparse(ch.func)))
                else:
                    self.n_resolved += 1
                    for tgt in t:
                        self.edges[node].append(Edge(node, tgt, ch, fm.at(ch), 'call'))
            elif isinstance(ch, ast.Attribute):
                for tgt in env.prop_targets(ch):
                    self.edges[node].append(Edge(node, tgt, ch, fm.at(ch), 'prop'))
        # closures defined here are reachable from their definer (deferred results, callbacks)
        for cu in closures(unit):
            if cu.parent is unit:
                self.edges[node].append(Edge(node, (ctx, cu), cu.node, fm.at(cu.node), 'closure'))

    def out(self, node):
        self.expand(node)
        return self.edges[node]

    def reach(self, entries, edge_ok=lambda e: True, stop=lambda n: False):
        """BFS; returns {node: (parent node, edge) or None}."""
        seen = {}
        work = collections.deque((e, None) for e in entries)
        while work:
            n, parent = work.popleft()
            if n in seen:
                continue
            seen[n] = parent
            if stop(n):
                continue
            for e in self.out(n):
                if edge_ok(e) and e.dst not in seen:
                    work.append((e.dst, (n, e)))
        return seen

    @staticmethod
    def path(seen, n):
        out = []
        while n is not None:
            p = seen[n]
            out.append((n, p[1].line if p else None))
            n = p[0] if p else None
        return list(reversed(out))

    @staticmethod
    def path_text(seen, n):
        parts = []
        for (ctx, u), line in CallGraph.path(seen, n):
            parts.append(u.qual + ('@' + ctx.name if ctx is not None and u.cls is not None and ctx is not u.cls else '')
                         + (':%d' % line if line else ''))
        return ' -> '.join(parts)

    def callers_index(self, universe):
        """{dst node: [edges]} over the given set of nodes (all expanded)."""
        idx = collections.defaultdict(list)
        for n in universe:
            for e in self.out(n):
                idx[e.dst].append(e)
        return idx


def all_nodes(P):
    """every (ctx, unit) with ctx = each instantiated class that can run the unit (methods) or None (functions)."""
    out = []
    for m in P.mods.values():
        for u in m.funcs.values():
            out.append((None, u))
        for c in m.classes.values():
            ks = [k for k in [c] + P.all_subs(c) if k in P.inst] or [c]
            for u in list(c.methods.values()) + list(c.props.values()) + list(c.setters.values()):
                for k in ks:
                    mem = P.member(k, u.name)
                    # the unit runs under k only when k resolves the name to this very unit (or reaches it by super)
                    out.append((k, u))
    return out
